package main

import (
	"encoding/json"
	"flag"
	"fmt"
	"os"
	"path/filepath"
	"runtime/debug"
	"sort"
	"strconv"
	"strings"
)

// A property is a list of rules; rules are produced by rule groups that walk
// the models extracted from /repo's current source.
type propDef struct {
	Groups []string
	Rules  []string       // rule names kept for this property (prefix match on "Rxx." allowed with trailing *)
	Floors map[string]int // per rule minimum instance counts on the pinned tree
	Meta   propMeta
}

type groupFn func(w *World, out *[]Obligation)

var groups = map[string]groupFn{}

func registerGroup(name string, f groupFn) { groups[name] = f }

func init() {
	registerGroup("layout", func(w *World, out *[]Obligation) { w.rulesLayout(out) })
}

// ruleMatches: pattern "R07.store", "R07.*", optionally restricted to the
// packages an obligation's instance belongs to: "R07.store@30|31".
func ruleMatches(pat string, o Obligation) bool {
	if i := strings.IndexByte(pat, '@'); i >= 0 {
		ok := false
		for _, k := range strings.Split(pat[i+1:], "|") {
			if strings.HasPrefix(o.Instance, k+".") || strings.HasPrefix(o.Instance, k+"~") {
				ok = true
			}
		}
		if !ok {
			return false
		}
		pat = pat[:i]
	}
	if strings.HasSuffix(pat, "*") {
		return strings.HasPrefix(o.Rule, strings.TrimSuffix(pat, "*"))
	}
	return pat == o.Rule
}

func main() {
	repo := flag.String("repo", "/repo", "root of the go-cvss working tree to analyse")
	verif := flag.String("verif", "/verif", "verification directory (evidence, known findings)")
	prop := flag.String("prop", "", "property id (C01..C18)")
	tier := flag.String("tier", "", "quick or thorough (default: $VERIF_TIER or quick)")
	dump := flag.String("dump", "", "debug: dump a model (set, get, readers, ...)")
	noEvidence := flag.Bool("no-evidence", false, "do not write evidence (used by the variants harness)")
	noControls := flag.Bool("no-controls", false, "skip the positive controls (used by the variants harness)")
	replay := flag.String("replay", "", "re-run only the rule instance recorded in a violation file and print its derivation")
	flag.Parse()
	if *tier == "" {
		*tier = os.Getenv("VERIF_TIER")
	}
	if *tier != "thorough" {
		*tier = "quick"
	}
	var seed int64
	if s := os.Getenv("VERIF_SEED"); s != "" {
		seed, _ = strconv.ParseInt(s, 10, 64)
	}
	if *dump != "" {
		w, err := load(*repo, "")
		if err != nil {
			fmt.Fprintln(os.Stderr, "load:", err)
			os.Exit(2)
		}
		dumpModel(w, *dump)
		return
	}
	def, ok := props[*prop]
	if !ok {
		fmt.Fprintf(os.Stderr, "unknown property %q\n", *prop)
		os.Exit(2)
	}
	if *replay != "" {
		os.Exit(runReplay(*prop, def, *repo, *replay))
	}
	skipControls = *noControls
	os.Exit(runProperty(*prop, def, *repo, *verif, *tier, seed, *noEvidence))
}

var skipControls bool

// runReplay re-derives the obligations whose key matches the recorded violation.
func runReplay(id string, def propDef, repo, path string) int {
	b, err := os.ReadFile(path)
	if err != nil {
		fmt.Fprintln(os.Stderr, "replay:", err)
		return 2
	}
	var rec struct {
		Key, Rule, Instance string
	}
	if err := json.Unmarshal(b, &rec); err != nil {
		fmt.Fprintln(os.Stderr, "replay:", err)
		return 2
	}
	w, err := load(repo, "")
	if err != nil {
		fmt.Println("load:", err)
		return 1
	}
	var all []Obligation
	for _, g := range def.Groups {
		groups[g](w, &all)
	}
	found, bad := 0, 0
	for _, o := range all {
		if o.Rule == rec.Rule && (o.Instance == rec.Instance || strings.HasPrefix(rec.Instance, o.Instance+"#")) {
			found++
			fmt.Printf("%s: [%s] %s — ok=%v — %s\n", o.Pos, o.Rule, o.Instance, o.OK, o.Detail)
			if !o.OK {
				bad++
			}
		}
	}
	if found == 0 {
		fmt.Printf("rule instance %s no longer exists on this tree\n", rec.Key)
		return 1
	}
	if bad > 0 {
		fmt.Printf("VIOLATION property=%s replay=%s\n", id, path)
		return 1
	}
	fmt.Println("the recorded rule instance holds on this tree")
	return 0
}

func runProperty(id string, def propDef, repo, verif, tier string, seed int64, noEvidence bool) (code int) {
	run := newRun(id, tier, seed)
	var files []fileHash
	func() {
		defer func() {
			if r := recover(); r != nil {
				// fail-closed: a panic of the analyser is a failure of the property
				run.fail("analyser", "panic", "", fmt.Sprintf("%v\n%s", r, debug.Stack()))
			}
		}()
		w, err := load(repo, "")
		if err != nil {
			run.fail("load", "packages", "", err.Error())
			return
		}
		files = w.Files
		w.Tier = tier
		w.Seed = seed
		w.Verif = verif
		w.Wants = func(rule string) bool {
			for _, pat := range def.Rules {
				if ruleMatches(strings.SplitN(pat, "@", 2)[0], Obligation{Rule: rule}) {
					return true
				}
			}
			return false
		}
		var all []Obligation
		hasLayout := false
		for _, g := range def.Groups {
			if g == "layout" {
				hasLayout = true
			}
		}
		var layoutObls []Obligation
		if !hasLayout {
			groups["layout"](w, &layoutObls)
		}
		for _, g := range def.Groups {
			f := groups[g]
			if f == nil {
				run.fail("analyser", "group:"+g, "", "rule group not registered")
				continue
			}
			f(w, &all)
		}
		// A property that does not list the layout premise (R07.store) must not
		// raise an alarm merely because that premise failed elsewhere: obligations
		// that could not be decided for that reason are recorded as not decided here
		// (the layout defect itself is reported under the properties that own it).
		premiseFailed := false
		failedPkgs := map[string]bool{}
		for _, o := range append(append([]Obligation(nil), all...), layoutObls...) {
			if (o.Rule == "R07.storev" || o.Rule == "R07.overlap") && !o.OK {
				premiseFailed = true
				if i := strings.IndexByte(o.Instance, '.'); i > 0 {
					failedPkgs[o.Instance[:i]] = true
				}
			}
		}
		ownsPremise := w.Wants("R07.store") || w.Wants("R07.storev")
		kept := 0
		for _, o := range all {
			inFailedPkg := false
			if i := strings.IndexByte(o.Instance, '.'); i > 0 && failedPkgs[o.Instance[:i]] {
				inFailedPkg = true
			}
			if premiseFailed && !ownsPremise && !o.OK && (strings.Contains(o.Detail, "premise R07.store failed") || (inFailedPkg && !layoutIndependent(o.Rule))) {
				o.OK = true
				o.NonTrivial = false
				o.Detail = "not decided in this run (layout premise failed; reported under C07/C02/C06): " + o.Detail
			}
			for _, pat := range def.Rules {
				if ruleMatches(pat, o) {
					run.add(o)
					kept++
					break
				}
			}
		}
		var fr []string
		for r := range def.Floors {
			fr = append(fr, r)
		}
		sort.Strings(fr)
		worldClean := true
		for _, o := range all {
			if !o.OK {
				worldClean = false
			}
		}
		owned := func(rule string) bool {
			// rule Rnn.* is owned by property Cnn
			return len(rule) >= 3 && len(id) >= 3 && rule[0] == 'R' && rule[1:3] == id[1:3]
		}
		for _, r := range fr {
			if owned(r) && !(premiseFailed && !ownsPremise) {
				// a property's own rules must be present: an anchor that could not be
				// analysed is a failure of that property (fail-closed)
				run.floor(r, def.Floors[r])
				continue
			}
			if !worldClean && len(run.Obls) > 0 {
				// Instance floors guard against a rule that silently matches nothing on a
				// tree the analyser otherwise understands. When some construct of the tree
				// is already reported (by this or by another property's rule) the counts of
				// dependent rules legitimately drop; the owning rule carries the alarm.
				allOK := true
				for _, o := range run.Obls {
					if !o.OK {
						allOK = false
					}
				}
				if allOK {
					run.Notes = append(run.Notes, "instance floor of "+r+" not asserted: another rule group reported an unrecognised or violating construct, dependent instance counts may legitimately differ")
					continue
				}
			}
			if premiseFailed && !ownsPremise {
				run.Notes = append(run.Notes, "instance floor of "+r+" not asserted: the layout premise failed, dependent rules were not decided")
				continue
			}
			run.floor(r, def.Floors[r])
		}
		if !skipControls {
			runControls(def, repo, run)
		}
		if tier == "thorough" {
			w.thorough(id, def, run)
		}
		for k, v := range w.Extra {
			run.Extra[k] = v
		}
	}()
	evDir := filepath.Join(verif, "evidence")
	if noEvidence {
		evDir = filepath.Join(os.TempDir(), fmt.Sprintf("cvsscheck-noev-%d", os.Getpid()))
		defer os.RemoveAll(evDir)
	}
	meta := def.Meta
	return run.finish(meta, verif, evDir, files)
}

// layoutIndependent: rules whose verdict does not use the byte layout model
// (Set's stores / Get's loads): the parsers' control flow and error values,
// the vocabulary accepted and printed, rating, effects and allocation rules.
// A failed layout premise never hides their verdicts.
func layoutIndependent(rule string) bool {
	for _, p := range []string{"R01.", "R09.", "R13.", "R14.", "R15.", "R17.", "R18.", "R06.cut", "R06.fresh", "R06.same", "R02.header", "R02.order", "R02.accept", "R08.accept", "R07.guard"} {
		if strings.HasPrefix(rule, p) {
			return true
		}
	}
	return false
}
