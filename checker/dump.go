package main

import (
	"fmt"
	"os"
	"strings"
)

func dumpModel(w *World, what string) {
	for _, k := range w.Order {
		p := w.Pkgs[k]
		switch what {
		case "sset":
			sm, err := p.buildSetModelSemantic()
			if err != nil {
				fmt.Println(k, "semantic Set model not applicable:", err, posSuffix(p, err))
				continue
			}
			for _, m := range sm.Metrics {
				fmt.Printf("%s %-4s L=%v width=%d enc=%v W=%d\n", k, m.Label, m.List, m.Width, m.Enc, len(m.W))
			}
			for _, o := range sm.Obls {
				if !o.OK {
					fmt.Println("  FAIL", o.Rule, o.Instance, o.Detail)
				}
			}
			fmt.Println(k, "runs:", sm.SemanticRuns)
		case "set":
			sm := p.SetModel()
			for _, m := range sm.Metrics {
				fmt.Printf("%s %-4s L=%v width=%d enc=%v W=%d\n", k, m.Label, m.List, m.Width, m.Enc, len(m.W))
			}
			for _, o := range sm.Obls {
				if !o.OK {
					fmt.Println("  FAIL", o.Rule, o.Instance, o.Detail)
				}
			}
		case "inlineparse":
			w2, notes, err := w.inlinedParserWorld(k)
			fmt.Println(k, "notes:", notes, "err:", err)
			if w2 != nil {
				for name, src := range w2.Overlay {
					fmt.Println("=====", name)
					lines := strings.Split(string(src), "\n")
					for i, l := range lines {
						if len(l) > 200 || os.Getenv("DUMP_ALL") != "" {
							fmt.Printf("%d: %s\n", i+1, l)
						}
					}
				}
			}
		case "inline":
			if k != "40" {
				continue
			}
			w2, notes, err := w.inlinedWorld("40", []string{"Score", "macroVector"})
			fmt.Println("notes:", notes, "err:", err)
			if w2 != nil {
				for name, src := range w2.Overlay {
					fmt.Println("=====", name)
					lines := strings.Split(string(src), "\n")
					for i, l := range lines {
						if len(l) > 300 || os.Getenv("DUMP_ALL") != "" {
							fmt.Printf("%d: %s\n", i+1, l)
						}
					}
				}
			}
		case "kvm":
			if vocab[k].Order != "free" {
				continue
			}
			ks := p.kvmSem(p.parseModelOf())
			fmt.Printf("%s decided=%v why=%q labels=%v\n  dup=%v %s\n  step=%v %s\n  unk=%v/%v %s\n  tail=%v %s\n  nopanic=%v %s\n", k, ks.Decided, ks.Why, ks.Labels, ks.DupOK, ks.DupWhy, ks.StepOK, ks.StepWhy, ks.UnkNonNil, ks.UnkTyped, ks.UnkWhy, ks.TailOK, ks.TailWhy, ks.NoPanic, ks.PanicWhy)
		case "get":
			gm := p.GetModel()
			for _, a := range gm.Arms {
				fmt.Printf("%s %-4s tag=%s table=%v\n", k, a.Label, a.Tag, a.Table)
			}
		}
	}
}
