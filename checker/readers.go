package main

// Layer M5: reader index. Every maximal uint8 expression outside Get/Set that
// reads the packed bytes, classified against Set's layout (M3).

import (
	"fmt"
	"go/ast"
	"go/token"
	"go/types"
	"sort"
	"strings"
)

type Reader struct {
	Expr    ast.Expr
	BV      BV
	Bits    []BitPos // receiver bits the value depends on
	Metrics []string // owners of those bits (sorted, unique); "" entries for unused bits are dropped
	Unused  []BitPos // bits read that belong to no metric
	Exact   string   // label M if the value is exactly code(M) in Set's bit order
	Path    []ast.Node
}

func (r Reader) String() string {
	if r.Exact != "" {
		return "code(" + r.Exact + ")"
	}
	return fmt.Sprintf("bits%v of {%s}", r.Bits, strings.Join(r.Metrics, ","))
}

// classify fills Bits/Metrics/Exact from BV.
func (p *Pkg) classify(bv BV) (Reader, bool) {
	sm := p.SetModel()
	r := Reader{BV: bv}
	ins, clean := bv.inBits()
	if !clean {
		return r, false
	}
	r.Bits = ins
	seen := map[string]bool{}
	for _, b := range ins {
		if m := sm.Owner[b]; m != nil {
			if !seen[m.Label] {
				seen[m.Label] = true
				r.Metrics = append(r.Metrics, m.Label)
			}
		} else {
			r.Unused = append(r.Unused, b)
		}
	}
	sort.Strings(r.Metrics)
	if len(r.Metrics) == 1 && len(r.Unused) == 0 {
		m := sm.ByLabel[r.Metrics[0]]
		if m.encOK {
			ok := true
			for j := 0; j < 8; j++ {
				t := bv[j]
				if j < m.Width {
					if !(t.K == BIn && t.A == m.Enc[j].F && t.B == m.Enc[j].B) {
						ok = false
					}
				} else if t.K != BZero {
					ok = false
				}
			}
			if ok {
				r.Exact = m.Label
			}
		}
	}
	return r, true
}

// readersIn returns the maximal receiver-reading uint8 expressions under n.
// locals maps single-assignment uint8 locals (already evaluated) so that
// `msi := ...; mod(x, msi)` style code is followed.
func (p *Pkg) readersIn(n ast.Node) []Reader {
	var out []Reader
	env := newBvEnv(p)
	// byte aliases: `u1 := c.u1` (never reassigned) stands for the byte itself;
	// what is then extracted from the alias is the read
	aliasDef := map[ast.Stmt]bool{}
	ast.Inspect(n, func(x ast.Node) bool {
		as, ok := x.(*ast.AssignStmt)
		if !ok || as.Tok != token.DEFINE || len(as.Lhs) != len(as.Rhs) {
			return true
		}
		all := true
		for i := range as.Lhs {
			o := identObj(p.Info, as.Lhs[i])
			if _, _, isField := p.fieldOf(as.Rhs[i]); !isField || o == nil || !isUint8(o.Type()) || assignedIn(p.Info, n, o) {
				all = false
			}
		}
		if all {
			aliasDef[as] = true
			for i := range as.Lhs {
				idx, _, _ := p.fieldOf(as.Rhs[i])
				env.locals[identObj(p.Info, as.Lhs[i])] = bvIn(idx)
			}
		}
		return true
	})
	mentionsBits := func(e ast.Expr) bool {
		if p.containsObjField(e) {
			return true
		}
		found := false
		ast.Inspect(e, func(y ast.Node) bool {
			if id, ok := y.(*ast.Ident); ok {
				if _, ok := env.locals[identObj(p.Info, id)]; ok {
					found = true
				}
			}
			return !found
		})
		return found
	}
	var path []ast.Node
	var visit func(x ast.Node) bool
	visit = func(x ast.Node) bool {
		if x == nil {
			path = path[:len(path)-1]
			return false
		}
		if st, ok := x.(ast.Stmt); ok && aliasDef[st] {
			return false
		}
		path = append(path, x)
		e, ok := x.(ast.Expr)
		if !ok {
			return true
		}
		tv, ok := p.Info.Types[e]
		if !ok || !isUint8(tv.Type) || !mentionsBits(e) {
			return true
		}
		bv, err := env.eval(e)
		if err != nil {
			return true // descend: a sub-expression may be evaluable
		}
		r, clean := p.classify(bv)
		if !clean {
			return true
		}
		r.Expr = e
		r.Path = append([]ast.Node(nil), path...)
		out = append(out, r)
		path = path[:len(path)-1]
		return false
	}
	ast.Inspect(n, visit)
	return out
}

// parentCall returns the call expression and argument index that directly
// consumes reader r (ignoring parentheses), if any.
func (r Reader) parentCall() (*ast.CallExpr, int) {
	for i := len(r.Path) - 2; i >= 0; i-- {
		switch x := r.Path[i].(type) {
		case *ast.ParenExpr:
			continue
		case *ast.CallExpr:
			child := r.Path[i+1]
			for ai, a := range x.Args {
				if ast.Node(a) == child {
					return x, ai
				}
			}
			return nil, -1
		default:
			return nil, -1
		}
	}
	return nil, -1
}

// anyBits recognises a "some bit set" predicate: a disjunction of
// `X != 0` / `X > 0` / `0 != X` tests over pure bit selections. It returns the
// set of tested bits.
func (p *Pkg) anyBits(e ast.Expr, locals map[types.Object][]BitPos) ([]BitPos, bool) {
	switch x := e.(type) {
	case *ast.ParenExpr:
		return p.anyBits(x.X, locals)
	case *ast.Ident:
		if o := identObj(p.Info, x); o != nil {
			if s, ok := locals[o]; ok {
				return s, true
			}
		}
		return nil, false
	case *ast.BinaryExpr:
		if x.Op == token.LOR {
			a, ok := p.anyBits(x.X, locals)
			if !ok {
				return nil, false
			}
			b, ok := p.anyBits(x.Y, locals)
			if !ok {
				return nil, false
			}
			return append(append([]BitPos(nil), a...), b...), true
		}
		var sel ast.Expr
		if x.Op == token.NEQ || x.Op == token.GTR {
			if u, ok := constUint(p.Info, x.Y); ok && u == 0 {
				sel = x.X
			}
		}
		if sel == nil && (x.Op == token.NEQ || x.Op == token.LSS) {
			if u, ok := constUint(p.Info, x.X); ok && u == 0 {
				sel = x.Y
			}
		}
		if sel == nil {
			return nil, false
		}
		tv, ok := p.Info.Types[sel]
		if !ok || !isUint8(tv.Type) {
			return nil, false
		}
		if o := identObj(p.Info, sel); o != nil {
			if bs, ok := locals[o]; ok {
				return bs, true
			}
		}
		return p.orBitsL(sel, locals)
	}
	return nil, false
}

// orBitsL: orBits with integer locals that stand for an OR of bit selections
func (p *Pkg) orBitsL(sel ast.Expr, locals map[types.Object][]BitPos) ([]BitPos, bool) {
	if bs, ok := p.orBits(sel); ok {
		return bs, true
	}
	switch x := sel.(type) {
	case *ast.ParenExpr:
		return p.orBitsL(x.X, locals)
	case *ast.Ident:
		if o := identObj(p.Info, x); o != nil {
			if bs, ok := locals[o]; ok {
				return bs, true
			}
		}
	case *ast.BinaryExpr:
		if x.Op == token.OR {
			a, ok := p.orBitsL(x.X, locals)
			if !ok {
				return nil, false
			}
			b, ok := p.orBitsL(x.Y, locals)
			if !ok {
				return nil, false
			}
			return append(append([]BitPos(nil), a...), b...), true
		}
	}
	return nil, false
}

// orBits: the input bits whose disjunction decides `sel != 0`. A bitwise OR
// of parts is non-zero exactly when some part is; each part must be a pure
// selection of receiver bits (no constant one bits, no mixing).
func (p *Pkg) orBits(sel ast.Expr) ([]BitPos, bool) {
	bv, err := newBvEnv(p).eval(sel)
	if err == nil {
		if ins, clean := bv.inBits(); clean {
			for _, b := range bv {
				if b.K == BOne {
					return nil, false // constant-true test
				}
			}
			return ins, true
		}
	}
	switch x := sel.(type) {
	case *ast.ParenExpr:
		return p.orBits(x.X)
	case *ast.BinaryExpr:
		if x.Op == token.OR {
			a, ok := p.orBits(x.X)
			if !ok {
				return nil, false
			}
			b, ok := p.orBits(x.Y)
			if !ok {
				return nil, false
			}
			return append(append([]BitPos(nil), a...), b...), true
		}
	}
	return nil, false
}

func bitSetKey(bs []BitPos) map[BitPos]bool {
	m := map[BitPos]bool{}
	for _, b := range bs {
		m[b] = true
	}
	return m
}

// metricsOfBits groups a bit set by owning metric and reports, per metric,
// whether the whole field is covered.
func (p *Pkg) metricsOfBits(bs []BitPos) (whole []string, partial []string, unused []BitPos) {
	sm := p.SetModel()
	set := bitSetKey(bs)
	seen := map[string]bool{}
	for b := range set {
		m := sm.Owner[b]
		if m == nil {
			unused = append(unused, b)
			continue
		}
		if seen[m.Label] {
			continue
		}
		seen[m.Label] = true
		all := true
		for _, e := range m.Enc {
			if !set[e] {
				all = false
			}
		}
		if all {
			whole = append(whole, m.Label)
		} else {
			partial = append(partial, m.Label)
		}
	}
	sort.Strings(whole)
	sort.Strings(partial)
	return
}
