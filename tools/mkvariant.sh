#!/bin/bash
# usage: mkvariant.sh <name> "<props>" "<expect>" <file> <sed-expr> ; writes /verif/variants/<name>.patch
set -e
name=$1; props=$2; expect=$3; file=$4; expr=$5
d=$(/verif/tools/scratch.sh mk$$)
cp $d/$file /tmp/mkv.orig.$$
sed -i "$expr" $d/$file
if cmp -s $d/$file /tmp/mkv.orig.$$; then echo "NOT APPLIED: $name"; rm -rf $d /tmp/mkv.orig.$$; exit 1; fi
(cd $d && GOWORK=off GOFLAGS=-mod=mod GOPROXY=off go build ./20 ./30 ./31 ./40) || { echo "DOES NOT BUILD: $name"; rm -rf $d /tmp/mkv.orig.$$; exit 1; }
(cd $d && GOWORK=off GOFLAGS=-mod=mod GOPROXY=off go test -count=1 ./20 ./30 ./31 ./40 >/dev/null 2>&1) && tests=pass || tests=FAIL
{ echo "# property: $props"; echo "# expect: $expect"; echo "# existing tests with this variant: $tests"; (cd $d && diff -u --label a/$file --label b/$file /tmp/mkv.orig.$$ $file || true); } > /verif/variants/$name.patch
rm -rf $d /tmp/mkv.orig.$$
echo "$name: tests=$tests"
