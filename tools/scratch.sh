#!/bin/bash
# usage: scratch.sh <name> ; creates /tmp/cvss-scratch/<name> as a copy of /repo's package dirs (no .git)
set -e
d=/tmp/cvss-scratch/$1
rm -rf "$d"; mkdir -p "$d"
for x in 20 30 31 40 go.mod go.sum; do cp -r /repo/$x "$d/"; done
echo "$d"
