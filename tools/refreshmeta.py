#!/usr/bin/env python3
# usage: refreshmeta.py <seed regression log> — rewrite detected_by of every archived seed from a
# log of lines "SEED <id> (ok|MISS-TARGET) detected_by= Cxx Cyy ..." (tools/scratchseed.sh runs)
import json, re, sys, os
n = 0
for ln in open(sys.argv[1]):
    m = re.match(r'SEED (\S+) (\S+) detected_by=(.*)', ln.strip())
    if not m:
        continue
    sid, det = m.group(1), m.group(3).split()
    mp = '/verif/seeded/%s/meta.json' % sid
    if not os.path.exists(mp):
        continue
    meta = json.load(open(mp))
    meta['detected_by'] = det
    meta['target_detected'] = sid[:3] in det
    meta['target_property_detected'] = sid[:3] in det
    json.dump(meta, open(mp, 'w'), indent=1)
    n += 1
print('refreshed', n)
