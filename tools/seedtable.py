#!/usr/bin/env python3
# prints a markdown table of /verif/seeded/*/meta.json (which checks catch which seeded change)
import json, glob, os
rows = []
for d in sorted(glob.glob('/verif/seeded/*')):
    m = json.load(open(d + '/meta.json'))
    name = os.path.basename(d)
    summ = (m.get('summary') or '').replace('|', '/').replace('\n', ' ')
    if len(summ) > 150: summ = summ[:147] + '...'
    det = ' '.join(m.get('detected_by', []))
    first = ''
    for l in m.get('reports', []):
        if '[R' in l or '[floor' in l:
            first = l.split('] ', 1)[0].split('[')[-1]
            break
    rows.append((name, m['property'], 'yes' if m.get('target_property_detected') else 'no', det, first, summ))
print('| seed | target | target check fires | all checks that fire | first rule reported | change |')
print('|---|---|---|---|---|---|')
for r in rows:
    print('| %s | %s | %s | %s | %s | %s |' % r)
print()
print('%d seeded changes, %d caught by at least one check, %d caught by the check of the property they were written against.' % (
    len(rows), sum(1 for r in rows if r[3]), sum(1 for r in rows if r[2] == 'yes')))
