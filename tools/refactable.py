#!/usr/bin/env python3
# usage: refactable.py [matrix-log ...] — record, per archived behaviour-preserving refactoring, which
# checks alarmed in the given matrix logs (lines "== <area>/<Rn> alarms: Cxx ...") and print a table.
import json, glob, os, sys, re
res = {}
for f in sys.argv[1:]:
    tag = 'r2-' if 'refac2' in f else ''
    for ln in open(f):
        m = re.match(r'== ([\w-]+)/(R\d|\.) alarms:(.*)', ln.strip())
        if m:
            if m.group(2) == '.':
                res[m.group(1)] = m.group(3).split()
            else:
                res[tag + m.group(1) + '-' + m.group(2)] = m.group(3).split()
rows = []
for d in sorted(glob.glob('/verif/refactor/*')):
    name = os.path.basename(d)
    mp = d + '/meta.json'
    meta = json.load(open(mp)) if os.path.exists(mp) else {}
    if name in res:
        meta['alarms_at_last_run'] = res[name]
        json.dump(meta, open(mp, 'w'), indent=1)
    summ = (meta.get('summary') or '').replace('|', '/').replace('\n', ' ')
    if len(summ) > 140: summ = summ[:137] + '...'
    al = meta.get('alarms_at_last_run')
    rows.append((name, 'silent' if al == [] else ('not run' if al is None else 'FALSE ALARM: ' + ' '.join(al)), summ))
print('| refactoring | all 18 checks | change |')
print('|---|---|---|')
for r in rows:
    print('| %s | %s | %s |' % r)
print()
print('%d behaviour-preserving refactorings, %d silent on all 18 checks.' % (len(rows), sum(1 for r in rows if r[1] == 'silent')))
