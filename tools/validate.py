#!/usr/bin/env python3
# validates MANIFEST.json and every evidence file against the schemas (run with python3-vt)
import json, sys, glob, jsonschema
ms = json.load(open('/root/.vp/MANIFEST.schema.json'))
es = json.load(open('/root/.vp/EVIDENCE.schema.json'))
m = json.load(open('/verif/MANIFEST.json'))
jsonschema.validate(m, ms)
ids = [json.loads(l)['id'] for l in open('/verif/properties.jsonl')]
claimed = [c['property_id'] for c in m['checks']]
na = [c['property_id'] for c in m.get('not_applicable', [])]
assert sorted(claimed + na) == sorted(ids), (claimed, na)
bad = 0
for c in m['checks']:
    try:
        e = json.load(open(c['evidence_file']))
        jsonschema.validate(e, es)
        assert e['level'] == c['level_claimed']['category'], (e['level'], c['level_claimed']['category'])
        assert e['property_id'] == c['property_id']
        if e['level'] == 'proof':
            assert e['coverage']['obligations'] == e['coverage']['discharged'], 'proof not fully discharged'
    except Exception as ex:
        bad += 1
        print('BAD', c['property_id'], repr(ex)[:300])
print('manifest ok; claimed', len(claimed), 'n/a', len(na), 'bad evidence', bad)
sys.exit(1 if bad else 0)
