#!/usr/bin/env python3
# Generates /verif/MANIFEST.json from the table below. Edit here, not the JSON.
import json, subprocess
IDS = ["C%02d" % i for i in range(1, 19)]
BASE_OFF = ("cd /repo && GOFLAGS=-mod=mod go test -vet=off -count=1 ./... && "
            "(cd differential && go test -vet=off -count=1 ./... ; true) && (cd benchmarks && go test -vet=off -count=1 -run '^$' ./... ; true)")
CHECKS = {}
def check(id, cat, text, note, technique, ref):
    CHECKS[id] = dict(cat=cat, text=text, note=note, technique=technique, ref=ref)

check("C07", "proof",
      "Complete static proof: bit-level non-interference of all 90 Set arms, validate-before-write, Get∘Set = id, unused bits stay 0, Set is the only writer. Sufficient for all three sentences of C07 by induction over call sequences.",
      "Trusted: go/types constant evaluation, the M3 transfer functions for uint8 & | ^ << >> (checker/bits.go), Go's memory safety (no unsafe/reflect on the struct; checked by census).",
      "custom static analyser (go/packages + go/types AST): known-bits abstract interpretation of every Set store and Get decode, cross-arm disjointness", "DESIGN §5 C07")

NOT_YET = {}
for i in IDS:
    if i not in CHECKS:
        NOT_YET[i] = "checker for this property not built yet in this round (design in DESIGN.md §5); will be claimed once its rules run"

m = {
 "version": 1,
 "setup_cmd": "cd /verif/checker && GOWORK=off GOPROXY=off GOSUMDB=off GOTOOLCHAIN=local GOFLAGS=-mod=vendor go build -o /verif/bin/cvsscheck .",
 "hooks": {"guard": "verif", "enable": "none needed: the checks read /repo's source; no build tag is consulted", "baseline_off_cmd": BASE_OFF, "source_commits": [], "add_only": True},
 "engines": [{"name": "cvsscheck", "path": "/verif/checker", "serves_properties": sorted(CHECKS), "kind_free_text": "repository-specific static analyser (Go; go/packages, go/types, go/cfg, go/ssa from vendored x/tools v0.29.0)"}],
 "checks": [],
 "notes": "All checks are static: they parse and type-check /repo's current working tree on every run and never execute repository code. See DESIGN.md.",
 "not_applicable": [{"property_id": k, "reason": v} for k, v in sorted(NOT_YET.items())],
}
for id in sorted(CHECKS):
    c = CHECKS[id]
    m["checks"].append({
        "property_id": id,
        "quick_cmd": "./check %s" % id,
        "thorough_cmd": "VERIF_TIER=thorough ./check %s" % id,
        "evidence_file": "/verif/evidence/%s.json" % id,
        "replay_cmd_template": "./check %s --replay {path}" % id,
        "engine": "cvsscheck",
        "level_claimed": {"category": c["cat"], "text": c["text"], "design_ref": c["ref"]},
        "level_note": c["note"],
        "technique": c["technique"],
    })
json.dump(m, open('/verif/MANIFEST.json', 'w'), indent=1, ensure_ascii=False)
print("wrote MANIFEST.json: %d checks, %d not applicable" % (len(m["checks"]), len(m["not_applicable"])))
