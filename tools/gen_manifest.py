#!/usr/bin/env python3
# Generates /verif/MANIFEST.json from the table below. Edit here, not the JSON.
import json, subprocess
IDS = ["C%02d" % i for i in range(1, 19)]
BASE_OFF = "for m in . differential benchmarks; do (cd /repo/$m && GOFLAGS= GOPROXY=off go test -json -vet=off -count=1 ./...); done"
CHECKS = {}
def check(id, cat, text, note, technique, ref):
    CHECKS[id] = dict(cat=cat, text=text, note=note, technique=technique, ref=ref)

T_AST = "custom static analyser over go/packages + go/types ASTs: "
check("C01", "other", "Necessary structural conditions of the accepted grammar, checked on every return site, table and path of the four parsers; does not decide the scanner loops.",
      "That the hand-written scanners hand exactly the '/'-separated elements to the cursor logic is NOT proved (DESIGN §10, AS-BUILT 43): it is only tabulated on a bounded family of inputs (R01.scan: canonical vectors with a bad element at every position, evaluated by the checker's fragment evaluator — closer to a table-driven test than to static analysis, no floor, no verdict where the evaluator cannot run the parser); their index and slice expressions on the input text ARE proved in range (R01.bounds: zone-domain abstract interpretation with widening, partitioned on the sign of a sentinel index, labelled loops, offsets relative to a cursor). The v2.0 part splitter is decided by its recognised counting-loop shape, otherwise by a bounded tabulation of its contract (splitsem.go). Vocabulary oracle transcribed from the specifications.",
      T_AST + "return-site census; go/cfg path rules; abstract interpretation in the zone domain (difference-bound matrices, widening) proving every index/slice expression on input text in range; cursor logic of the fixed-order parsers tabulated into a finite automaton and compared with the specification's order automaton by a product walk (acceptance, error kinds, Set called on every consumed element); v3 defined-once / missing-metric logic interpreted symbolically over flags or bit sets for every subset of metrics; vocabulary tables compared with the specification", "DESIGN §5 C01, AS-BUILT 14, 22-23, 27, 38")
check("C02", "other", "Round trip reduced to proved layout facts (C07) plus serializer/parser table agreement; decided for every metric and value.",
      "The parser loop accepting the emitted string is shared with C01 and not decided.", T_AST + "symbolic interpretation of Vector over the strings Get prints (helpers inlined, constant-table loops unrolled, branches merged, receiver-bit tests lifted to Get strings) giving the exact shape of the output; Set/Get layout models (syntactic, or read off runs of Set on a symbolic receiver); one direction of the parser automaton comparison (accepts everything Vector writes); the length of the returned string is len(buffer) or a sizing value proved equal to the bytes written for every object (R02.strlen)", "DESIGN §5 C02, AS-BUILT 20, 24, 31-34, 44")
check("C03", "other", "The code evaluates the specification's expressions with the specification's constants on the right inputs (canonical formula trees, weight tables, byte routing = oracle) AND every rounding step/comparison is farther from its discontinuity than any float64 evaluation error, for every metric combination — so the returned one-decimal values are exactly the specification's.",
      "Trusted: IEEE-754 binary64 round-to-nearest error model stated in checker/floatsafe.go; EnvironmentalScore float64-stability (3.36 M combinations per version) is re-derived in the thorough tier only.", T_AST + "symbolic evaluation of loop-free methods into canonical formula trees (exact rational literals), known-bits routing of every byte read, weight tables by exhaustive evaluation of the helper switches; a Roundup helper that is not the specification's algorithm verbatim is decided by decomposition over the integer it works on (agreement on every integer of the domain, interval analysis of all call sites: roundsem.go)", "DESIGN §5 C03, AS-BUILT 45")
check("C04", "other", "Every table, predicate, guard and per-EQ term of the MacroVector algorithm equals the specification; EQ predicates and next-lower logic by complete finite tabulation.",
      "Exact x.x5 tie classes (2 887 of 52 650) are not decided. Lookup oracle is a second-hand copy of FIRST's table (claircore).", T_AST + "complete truth tables of loop-free fragments over metric codes (M7), table extraction, template matching of the interpolation def-use chain", "DESIGN §5 C04")
check("C05", "other", "As C03 for the v2.0 equations.", "Combinations within the float64 error bound of an exact half-way case are counted, not decided (the property leaves half-way cases open).", T_AST + "canonical formula trees, weight tables, known-bits routing", "DESIGN §5 C05")
check("C06", "other", "Set receives the two halves of the same element on the returned, all-zero-initialised object; code 0 is the not-defined token; Get inverts Set (C07).",
      "Which elements the loops visit is C01's undecided part.", T_AST + "def-use identity of Set's arguments, all-zero object check, layout model (known-bits abstract interpretation, or runs of Set/Get on a symbolic receiver), cut at ':' (shape, or bounded evaluation when the shape is not recognised); every success return hands back the object the loop wrote (R01.pair); bounded scanner tabulation (R01.scan)", "DESIGN §5 C06, AS-BUILT 31-32, 38, 43")
check("C07", "proof", "Complete static proof: bit-level non-interference of all 90 Set arms, validate-before-write, Get∘Set = id, unused bits stay 0, Set is the only writer. Sufficient for all three sentences of C07 by induction over call sequences.",
      "Trusted: go/types constant evaluation, the M3 transfer functions for uint8 & | ^ << >> (checker/bits.go), Go's memory safety (no unsafe/reflect on the struct; checked by census).",
      T_AST + "known-bits abstract interpretation of every Set store and Get decode, cross-arm disjointness; when Set is not a switch of stores: Set(abv, value) evaluated on a symbolic receiver for every abbreviation and value, each receiver bit classified as preserved / constant / other", "DESIGN §5 C07, AS-BUILT 31-32")
check("C08", "other", "Canonical form: emission order, prefixes, skip rule and value idempotence decided per metric.", "The set of accepted strings is C01's.", T_AST + "symbolic interpretation of Vector (exact output shape: order, prefixes, skip sets by evaluating each guard on every string Get prints, v2 group conditions by truth table) against the specification order; parser accepts what Vector writes (automaton); string length = bytes written (R02.strlen)", "DESIGN §5 C08, AS-BUILT 44")
check("C09", "other", "Vocabulary equality with the specification, refusing default arms, and exhaustiveness of every panicking switch/table over the codes that can reach it.",
      "Index expressions inside parser loops not decided.", T_AST + "table extraction and exhaustive evaluation of helper switches over reachable code ranges", "DESIGN §5 C09")
check("C10", "proof", "Complete: the environmental scores are functions of effective values only (symbolic trees for v3, complete truth tables for every v4 local and EQ predicate), defaults for undefined metrics equal the specification's, supplemental metrics are never read.",
      "Trusted: the M3/M7/M8 evaluators of the checker; for v4 the loop nest is covered through the classification of every value passed to severityDistance.", T_AST + "non-interference by symbolic formula trees (v3) and complete finite truth tables over (base, Modified) code pairs (v4)", "DESIGN §5 C10")
check("C11", "other", "Every score return is rounded or 0, rounding bodies end in /10 of an integer-valued float, v3 caps, lookup literals one-decimal in [0,10], no reachable panic; Rating's decision list accepts every value of the scale (threshold-partition regions, R15.region).",
      "Numeric range of the v2 arithmetic not decided.", T_AST + "return-leaf analysis of the canonical trees, table checks, threshold partition of Rating", "DESIGN §5 C11")
check("C12", "other", "Exhaustive exact-rational monotonicity: v2/v3 canonical formula trees over all value combinations (R12.real); v4 score model over 4.9 M single-metric steps x (level, distance) classes (R12.v4real); plus lookup edges, severity orders, weight tables.",
      "Decided for the real-valued model of all versions; float64 rounding is covered by C03/C04 rules for v3/v4; v2 half-way ties are inherently open. v3.1 EnvironmentalScore over all E/RL/RC values in the thorough tier only.", T_AST + "order checks over extracted tables against the specification severity orders", "DESIGN §5 C12")
check("C13", "other", "Headers pairwise prefix-incomparable and equal to the specification; header guard is the first statement; v2 starts at 'AV'. The clause 'Vector() output is accepted by its own parser' is decided by C02's rule set, which this check also runs.",
      "v2 clause relies on C01's loop; that the parser loop accepts the emitted string is shared with C01/C02.", T_AST + "constant comparison and guard-shape/dominance check; C02's serializer/parser table agreement and string-length rule", "DESIGN §5 C13")
check("C14", "other", "Effect analysis: no writes to package-level state, only Set writes through *T, pool typestate, private buffer, concurrency census.",
      "Go memory model and sync.Pool contract trusted.", "SSA-based effect and typestate analysis (go/ssa): stores rooted at globals or *T parameters on paths of the documented read-only API, taint of the pooled value; provenance of Vector's returned bytes followed to a make in the same call by symbolic interpretation (append-only helper discipline otherwise); thin wrappers around the pool are inlined at source level first; the splitter writes every slot it reports (shape, or bounded tabulation of its contract) and the caller's reslice follows its return convention; conservative alias/escape analysis of every package-level slice, map, pointer and array (append on a reslice, copy, element stores through locals, callees that store through parameters)", "DESIGN §5 C14, AS-BUILT 21, 36, 46, 47")
check("C15", "proof", "Complete for every non-NaN float64: threshold partition into 13 regions per package, decision list evaluated per region, three packages identical.",
      "NaN unspecified. Trusted: constants are read through go/types as float64 values.", T_AST + "region (threshold-partition) analysis of a comparison-only decision list", "DESIGN §5 C15")
check("C16", "proof", "Complete: all byte reads are whole-field definedness predicates; 2^15 definedness combinations enumerated against CVSS-B[T][E].",
      "Relies on C07's layout (premises R07.store/R07.preserve for v4 included).", T_AST + "tested-bit-set analysis (including bit locals and OR-ed bytes) plus exhaustive finite enumeration over definedness", "DESIGN §5 C16")
check("C17", "other", "Compiler escape census with every heap site classified and budgeted; lenVec >= emitted length for every object; no allocating construct or non-allow-listed callee on API paths.",
      "Decided for the installed toolchains only (go1.23.5 quick; plus go1.26.8 thorough); pool steady state trusted.", "compiler escape analysis (-gcflags=-m) parsed and classified against the AST, exhaustive per-component comparison of lenVec with the serializer table, construct/callee census", "DESIGN §5 C17")
check("C18", "other", "Census of every error-producing site with its guard kind and documented error value; which values are illegal and which abbreviations unknown is the specification vocabulary (R09.values/R09.labels); the abbreviation a typed error names is the element's part before its first ':' (R06.cut); that every element, a trailing empty one included, reaches the error-producing dispatch is tabulated on a bounded family of inputs (R01.scan, labelled bounded, not static).",
      "Two sites observed, not asserted (DESIGN §9 O1/O2); the scanners are tabulated, not proved (R01.scan).", T_AST + "error value of every rejected transition of the cursor automaton (v2/v4) and of every subset of missing / repeated / unknown metrics in the symbolic defined-once model (v3); return-site census with guard classification; typed-error construction and sentinel census", "DESIGN §5 C18, AS-BUILT 23, 27")

NOT_YET = {}
for i in IDS:
    if i not in CHECKS:
        NOT_YET[i] = "checker for this property not built yet in this round (design in DESIGN.md §5); will be claimed once its rules run"

m = {
 "version": 1,
 "setup_cmd": "cd /verif/checker && GOWORK=off GOPROXY=off GOSUMDB=off GOTOOLCHAIN=local GOFLAGS=-mod=vendor go build -o /verif/bin/cvsscheck .",
 "hooks": {"guard": "verif", "enable": "none needed: the checks read /repo's source; no build tag is consulted", "baseline_off_cmd": BASE_OFF, "source_commits": [], "add_only": True},
 "engines": [{"name": "cvsscheck", "path": "/verif/checker", "serves_properties": sorted(CHECKS), "kind_free_text": "repository-specific static analyser (Go; go/packages, go/types, go/cfg, go/ssa from vendored x/tools v0.29.0)"}],
 "checks": [],
 "notes": "All checks parse and type-check /repo's current working tree on every run; repository code is never compiled and run. Helper packages of the same module imported by the four version packages are merged into them at source level first (overlay, type-checked). Besides pattern, dataflow and abstract-interpretation rules the analyser contains its own evaluators (DESIGN section 0): complete tabulation of loop-free fragments over finite enum domains, symbolic interpretation of whole functions on a symbolic receiver, and three BOUNDED tabulations over concrete strings that are not static analysis and are labelled so in every verdict (R01.scan, the fallback of R06.cut, the part-splitter contract of splitsem.go); they are supplementary and never the only basis of a 'proof'-level claim.",
 "not_applicable": [{"property_id": k, "reason": v} for k, v in sorted(NOT_YET.items())],
}
for id in sorted(CHECKS):
    c = CHECKS[id]
    m["checks"].append({
        "property_id": id,
        "quick_cmd": "./check %s" % id,
        "thorough_cmd": "VERIF_TIER=thorough ./check %s" % id,
        "evidence_file": "/verif/evidence/%s.json" % id,
        "replay_cmd_template": "./check %s --replay {path}" % id,
        "engine": "cvsscheck",
        "level_claimed": {"category": c["cat"], "text": c["text"], "design_ref": c["ref"]},
        "level_note": c["note"],
        "technique": c["technique"],
    })
json.dump(m, open('/verif/MANIFEST.json', 'w'), indent=1, ensure_ascii=False)
print("wrote MANIFEST.json: %d checks, %d not applicable" % (len(m["checks"]), len(m["not_applicable"])))
