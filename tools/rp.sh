#!/bin/bash
# usage: rp.sh <area> <Rn> <prop>... ; selected checks on clean HEAD + a refactoring patch
a=$1; r=$2; shift 2
d=/tmp/rp-$$; rm -rf $d; mkdir -p $d
git -C /repo archive HEAD 20 30 31 40 go.mod go.sum | tar -x -C $d
(cd $d && patch -p1 -s < /tmp/refac/$a/$r/patch.diff) || { echo "patch failed"; rm -rf $d; exit 2; }
for p in "$@"; do ${BIN:-/verif/bin/cvsscheck} -prop $p -repo $d -no-evidence 2>&1 | grep -v '^VIOLATION' | grep -E '\[R|\[floor|\[control|^C[0-9]+:' | head -${N:-4} | cut -c1-${W:-300} | sed "s#^#$a/$r $p: #"; done
rm -rf $d
