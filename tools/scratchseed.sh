#!/bin/bash
# usage: scratchseed.sh <seed dir> ; all 18 quick checks on a scratch copy of HEAD + the seed's patch (no /repo mutation)
d=$(mktemp -d /tmp/ss.XXXXXX)
git -C /repo archive HEAD 20 30 31 40 go.mod go.sum | tar -x -C $d
(cd $d && patch -p1 -s < $1/patch.diff) || { echo "patch failed"; rm -rf $d; exit 2; }
det=""
for i in $(seq -w 1 18); do
  ${BIN:-/verif/bin/cvsscheck} -prop C$i -repo $d -no-evidence >/dev/null 2>&1 || det="$det C$i"
done
echo "detected_by=$det"
rm -rf $d
