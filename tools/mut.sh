#!/bin/bash
# usage: mut.sh <prop> <relative-file> <sed-expression> ; ad-hoc checker test on a scratch copy
set -u
prop=$1; file=$2; expr=$3
d=$(/verif/tools/scratch.sh mut$$)
before=$(sha256sum $d/$file)
sed -i "$expr" $d/$file
after=$(sha256sum $d/$file)
if [ "$before" = "$after" ]; then echo "MUTATION DID NOT APPLY"; rm -rf $d; exit 3; fi
(cd $d && GOWORK=off GOFLAGS=-mod=mod GOPROXY=off go build ./20 ./30 ./31 ./40) || { echo "DOES NOT BUILD"; rm -rf $d; exit 4; }
/verif/bin/cvsscheck -prop $prop -repo $d -no-evidence | grep -v "^VIOLATION" | cut -c1-300
rc=${PIPESTATUS[0]}
rm -rf $d
exit $rc
