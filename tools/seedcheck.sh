#!/bin/bash
# usage: seedcheck.sh <Cxx> <A|B>  — confirm a sub-agent's seeded defect and run all checks against it
set -u
id=$1; ab=$2
src=${SEEDROOT:-/tmp/seed-out}/$id/$ab
[ -f $src/patch.diff ] || { echo "no patch for $id/$ab"; exit 2; }
export GOFLAGS=-mod=mod GOPROXY=off GOSUMDB=off GOTOOLCHAIN=local GOWORK=off
if [ -n "${FAST:-}" ] && grep -q '^confirmed=1' $src/confirm.txt 2>/dev/null; then
  # already confirmed in an earlier run: only re-run the checks
  grep -v '^detected_by=' $src/confirm.txt > $src/confirm.tmp; mv $src/confirm.tmp $src/confirm.txt
  res=$src/confirm.txt; ok=1
else
wt=/tmp/sc-$id-$ab
git -C /repo worktree remove --force $wt >/dev/null 2>&1
git -C /repo worktree add -q --detach $wt HEAD || exit 2
res=$src/confirm.txt; : > $res
demodir=$(python3 -c "import json;print(json.load(open('$src/meta.json')).get('demo_dir',''))" 2>/dev/null)
[ -z "$demodir" ] && demodir=$(grep -m1 -o 'place in: *[0-9a-z/]*' $src/demo_test.go | sed 's/place in: *//; s#/$##')
echo "demo_dir=$demodir" >> $res
ok=1
if git -C $wt apply --check $src/patch.diff 2>>$res; then git -C $wt apply $src/patch.diff; else echo "PATCH DOES NOT APPLY" >> $res; ok=0; fi
if [ $ok = 1 ]; then
  if git -C $wt diff --name-only | grep -q '_test.go'; then echo "PATCH TOUCHES TESTS" >> $res; ok=0; fi
  (cd $wt && go build ./... ) >>$res 2>&1 && echo "build: ok" >> $res || { echo "build: FAIL" >> $res; ok=0; }
  (cd $wt && go test -count=1 ./20 ./30 ./31 ./40) >/tmp/sc-test.$$ 2>&1 && echo "existing tests with patch: pass" >> $res || { echo "existing tests with patch: FAIL" >> $res; tail -5 /tmp/sc-test.$$ >> $res; ok=0; }
  (cd $wt/differential && GOFLAGS= GOWORK= go test -count=1 -run 'V3_Claircore|V3_Goark|V3_Facebook|V4_Claircore|V2_Goark|V2_Zntrio' . ) >/tmp/sc-test.$$ 2>&1 && echo "differential (baseline-passing subset) with patch: pass" >> $res || { echo "differential subset with patch: FAIL" >> $res; grep -m3 -E "^--- FAIL" /tmp/sc-test.$$ >> $res; ok=0; }
  cp $src/demo_test.go $wt/$demodir/zz_seed_demo_test.go
  (cd $wt && go test -count=1 -run . ./$demodir) >/tmp/sc-test.$$ 2>&1 && { echo "demo with patch: PASSES (expected failure)" >> $res; ok=0; } || echo "demo with patch: fails (as expected)" >> $res
  rm -f $wt/$demodir/zz_seed_demo_test.go
  git -C $wt checkout -q -- .
  cp $src/demo_test.go $wt/$demodir/zz_seed_demo_test.go
  (cd $wt && go test -count=1 ./$demodir) >/tmp/sc-test.$$ 2>&1 && echo "demo on pristine: passes (as expected)" >> $res || { echo "demo on pristine: FAILS" >> $res; tail -5 /tmp/sc-test.$$ >> $res; ok=0; }
fi
rm -f /tmp/sc-test.$$
git -C /repo worktree remove --force $wt
echo "confirmed=$ok" >> $res
fi
# run all checks against /repo with the patch applied
if [ $ok = 1 ]; then
  [ -z "$(git -C /repo status --short)" ] || { echo "/repo not clean"; exit 2; }
  git -C /repo apply $src/patch.diff
  det=""
  : > $src/checks.txt
  tmpd=$(mktemp -d /tmp/sck.XXXXXX)
  seq -w 1 18 | xargs -P ${PAR:-6} -I{} sh -c '${BIN:-/verif/bin/cvsscheck} -prop C{} -repo /repo -verif /verif -no-evidence > '$tmpd'/C{}.out 2>&1; echo $? > '$tmpd'/C{}.rc'
  for i in $(seq -w 1 18); do
    rc=$(cat $tmpd/C$i.rc)
    if [ "$rc" != "0" ]; then det="$det C$i"; echo "== C$i (exit $rc)" >> $src/checks.txt; grep -v '^VIOLATION' $tmpd/C$i.out | grep -E '\[R|\[floor|\[control|\[load|\[analyser' | cut -c1-400 | head -8 >> $src/checks.txt; fi
  done
  rm -rf $tmpd
  git -C /repo checkout -- .
  echo "detected_by=$det" >> $res
fi
cat $res
