#!/usr/bin/env python3
# usage: splicetables.py <refactor matrix log> — regenerates the corpus tables of DESIGN.md §8.2/§8.3
# from /verif/seeded/*/meta.json and the matrix log (tools/seedtable.py, tools/refactable.py)
import re, subprocess, sys
log = sys.argv[1]
st = subprocess.run(['python3', '/verif/tools/seedtable.py'], capture_output=True, text=True, check=True).stdout.rstrip('\n')
rt = subprocess.run(['python3', '/verif/tools/refactable.py', log], capture_output=True, text=True, check=True).stdout.rstrip('\n')
s = open('/verif/DESIGN.md').read()
i = s.index('| seed | target | target check fires |')
tail = 'caught by the check of the property they were written against.'
j = s.index(tail, i) + len(tail)
s = s[:i] + st + s[j:]
i = s.index('| refactoring | all 18 checks | change |')
m = re.search(r'\d+ behaviour-preserving refactorings, \d+ silent on all 18 checks\.', s[i:])
assert rt.startswith('| refactoring | all 18 checks | change |')
s = s[:i] + rt + s[i + m.end():]
open('/verif/DESIGN.md', 'w').write(s)
print(st.splitlines()[-1]); print(rt.splitlines()[-1])
