#!/usr/bin/env python3
# usage: keepseed.py Cxx A|B  — copy a confirmed seeded defect into /verif/seeded/<id>-<ab>/
import sys, json, os, shutil
id, ab = sys.argv[1], sys.argv[2]
root = os.environ.get('SEEDROOT', '/tmp/seed-out')
tag = os.environ.get('SEEDTAG', '')
src = f'{root}/{id}/{ab}'
conf = open(src + '/confirm.txt').read()
assert 'confirmed=1' in conf, conf
det = [l for l in conf.splitlines() if l.startswith('detected_by=')][0].split('=', 1)[1].split()
dst = f'/verif/seeded/{id}-{tag}{ab}'
os.makedirs(dst, exist_ok=True)
shutil.copy(src + '/patch.diff', dst + '/patch.diff')
shutil.copy(src + '/demo_test.go', dst + '/demo_test.go')
m = json.load(open(src + '/meta.json'))
demodir = [l for l in conf.splitlines() if l.startswith('demo_dir=')][0].split('=', 1)[1]
meta = {
    'property': id,
    'summary': m.get('summary', ''),
    'needs': m.get('needs', ''),
    'files': m.get('files', []),
    'demo_dir': demodir,
    'origin': 'independent sub-agent given only the property text and a scratch worktree of /repo',
    'confirmed': {
        'what_i_ran': [
            'scratch worktree of /repo (git worktree add --detach), git apply patch.diff',
            'go build ./... ; go test -count=1 ./20 ./30 ./31 ./40 -> pass with the patch',
            "differential: go test -run 'V3_Claircore|V3_Goark|V3_Facebook|V4_Claircore|V2_Goark|V2_Zntrio' -> pass with the patch",
            f'demo_test.go copied into {demodir}/ -> fails with the patch, passes on the pristine tree',
            'git -C /repo apply patch.diff ; all 18 quick checks (-no-evidence) ; git -C /repo checkout -- .',
        ],
        'log': conf.strip().splitlines(),
    },
    'detected_by': det,
    'target_property_detected': id in det,
    'reports': open(src + '/checks.txt').read().splitlines() if os.path.exists(src + '/checks.txt') else [],
}
json.dump(meta, open(dst + '/meta.json', 'w'), indent=1)
print(dst, det)
