#!/bin/bash
# usage: seedprobe.sh <seedroot> <Cxx> <A|B> <prop>... ; runs checks on a clean archive of /repo HEAD + the seed patch
root=$1; id=$2; ab=$3; shift 3
d=/tmp/probe-$$; rm -rf $d; mkdir -p $d
git -C /repo archive HEAD 20 30 31 40 go.mod go.sum | tar -x -C $d
(cd $d && patch -p1 -s < $root/$id/$ab/patch.diff) || { echo "patch failed"; rm -rf $d; exit 2; }
for p in "$@"; do echo "$id-$ab on $p: $(${BIN:-/verif/bin/cvsscheck} -prop $p -repo $d -no-evidence 2>&1 | grep -v '^VIOLATION' | tail -2 | cut -c1-260 | tr '\n' ' ')"; done
rm -rf $d
