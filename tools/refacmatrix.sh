#!/bin/bash
# usage: refacmatrix.sh [logfile] — all 18 quick checks on every archived behaviour-preserving refactoring
# (scratch copies of /repo HEAD); writes lines "== <name>/. alarms: Cxx ..." for tools/refactable.py
log=${1:-/tmp/refac-matrix.log}
: > $log
ls -d /verif/refactor/*/ | xargs -n1 basename | xargs -P ${PAR:-10} -I{} sh -c 'REFROOT=/verif/refactor BIN=${BIN:-/verif/bin/cvsscheck} /verif/tools/refacprobe.sh {} . 2>&1 | grep "^=="' >> $log
grep -c "^==" $log
