#!/bin/bash
# usage: BIN=<checker> tools/seedmatrix.sh > log ; all 18 quick checks on every archived seeded defect (scratch copies of /repo HEAD); lines "SEED <id> ok|MISS-TARGET detected_by= ..." for tools/refreshmeta.py
BIN=${BIN:-/verif/bin/cvsscheck}
export BIN
run_seed(){ d=$1; id=$(basename $d); tgt=${id:0:3}; r=$(/verif/tools/scratchseed.sh $d 2>/dev/null | grep detected_by); case "$r" in *" $tgt"*) echo "SEED $id ok $r";; *) echo "SEED $id MISS-TARGET $r";; esac; }
export -f run_seed
ls -d /verif/seeded/*/ | sed 's:/$::' | xargs -P 12 -I{} bash -c 'run_seed {}' 
