#!/bin/bash
# usage: refacprobe.sh <area> <Rn> ; all 18 checks on clean HEAD + a behaviour-preserving patch; prints alarms
a=$1; r=$2
d=/tmp/rprobe-$$-$a-$r; rm -rf $d; mkdir -p $d
git -C /repo archive HEAD 20 30 31 40 go.mod go.sum | tar -x -C $d
(cd $d && patch -p1 -s < ${REFROOT:-/tmp/refac}/$a/$r/patch.diff) || { echo "$a/$r: patch failed"; rm -rf $d; exit 2; }
(cd $d && GOWORK=off GOFLAGS=-mod=mod GOPROXY=off go build ./20 ./30 ./31 ./40) || { echo "$a/$r: build failed"; rm -rf $d; exit 2; }
out=""
for i in $(seq -w 1 18); do
  o=$(${BIN:-/verif/bin/cvsscheck} -prop C$i -repo $d -no-evidence 2>&1); rc=$?
  if [ $rc -ne 0 ]; then out="$out C$i"; echo "$o" | grep -v '^VIOLATION' | grep -E '\[R|\[floor|\[control|\[load|\[analyser' | head -3 | cut -c1-330 | sed "s/^/   C$i: /"; fi
done
echo "== $a/$r alarms:$out"
rm -rf $d
