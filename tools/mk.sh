#!/bin/bash
# usage: mk.sh <patch.diff> <dir> ; clean archive of /repo HEAD + patch under <dir>
rm -rf $2 && mkdir -p $2 && git -C /repo archive HEAD 20 30 31 40 go.mod go.sum | tar -x -C $2 && (cd $2 && patch -p1 -s < $1)
